#!/usr/bin/env python3
"""Regenerates DESIGN.md section 9 (seeded changes: which checks catch which) from /verif/seeded/*/meta.json.
The prose blocks live in this script; the table is generated."""
import json, glob, os
rows = []
for d in sorted(glob.glob('/verif/seeded/*/')):
    n = os.path.basename(d.rstrip('/'))
    m = json.load(open(d + 'meta.json'))
    h = m['history']
    head = h.split(';')[0]
    first = 'missed' if ('MISSED' in head or 'INCONCLUSIVE' in head) else 'caught'
    rnd = {'a': 1, 'b': 1, 'c': 2, 'd': 2, 'e': 2, 'f': 3, 'g': 3, 'h': 4, 'i': 4, 'j': 5, 'k': 5, 'l': 6, 'm': 6, 'n': 7, 'p': 7, 'q': 8, 'r': 8, 'x': 8, 's': 9}[n[-1]]
    rows.append((n, ', '.join(m['changed_files']), first, h, rnd, ', '.join(m.get('detected_by', []))))
cnt = {r: [sum(1 for x in rows if x[4] == r), sum(1 for x in rows if x[4] == r and x[2] == 'missed')] for r in (1, 2, 3, 4, 5, 6, 7, 8, 9)}
retired = sorted(os.path.basename(d.rstrip('/')) for d in glob.glob('/verif/retired/*/'))
out = [f'''
## 9. Seeded changes: which checks catch which

{len(rows)} changes to go-gorm/gorm were written by fresh sub-agents that saw only the text of one
property and a scratch worktree (never /verif): {cnt[1][0]} in a first round (two per property), {cnt[2][0]} in a second
(three per property), {cnt[3][0]} in a third, {cnt[4][0]} in a fourth, {cnt[5][0]} in a fifth, {cnt[6][0]} in a sixth, {cnt[7][0]} in a seventh, {cnt[8][0]} in an eighth (two per property each) and {cnt[9][0]} in a short ninth (one change per property, in the last two hours of the time; a property
has fewer where an agent delivered only one change that passed the whole suite, where a delivered change
could not be confirmed, or where a change was retired, see below). From round 2 on the agents were told which
functions earlier rounds had changed and were asked for other mechanisms: error paths, second uses of a
handle / record / destination / cache, unusual schemas, call orders. Each change was confirmed by
`bin/confirm_mutant` in a scratch worktree (its demonstration passes on the unchanged tree; with the
change both modules build, the full existing suite passes, the demonstration fails) and is kept under
`/verif/seeded/<id>/` (patch.diff, demo_test.go, README.md, meta.json). `bin/run_seeded quick`
re-runs the property's check against every change; the last complete run is kept in `seeded/MATRIX.txt`.

**Missed by the check as it stood when the change arrived: round 1: {cnt[1][1]} of {cnt[1][0]}; round 2: {cnt[2][1]} of {cnt[2][0]};
round 3: {cnt[3][1]} of {cnt[3][0]}; round 4: {cnt[4][1]} of {cnt[4][0]}; round 5: {cnt[5][1]} of {cnt[5][0]}; round 6: {cnt[6][1]} of {cnt[6][0]}; round 7: {cnt[7][1]} of {cnt[7][0]}; round 8: {cnt[8][1]} of {cnt[8][0]}; round 9: {cnt[9][1]} of {cnt[9][0]}.** The share of misses does not fall from round to round: every round's
testers were told what the earlier ones had changed and were steered towards rarer combinations (round 6:
interactions of three features, rarely used entry points and flags, state kept between two calls), while
the checks had only been extended for what had been delivered so far. With the exceptions listed at the end, every miss was a gap in the workload, not
in the oracle: the oracle decided correctly as soon as the input was produced. All {len(rows)} are caught by the
quick tier now (last column: the check that fires; after round 9 the 193 changes of the eleven widened engines were run again
with the final engines: all caught, `seeded/MATRIX.txt`). Patches were re-based (and re-confirmed) where a
repair of gorm touched the same lines (C04-d, C11-b, C11-d, C11-e, C14-e, C17-b). Two round-3 changes
repeat earlier ones (C07-f = C07-e, C14-f = C14-e), as do some of round 4 (C02-i = C02-g, C07-i = C07-e,
C14-h = C14-e, C11-h = C08-c seen from C11, C09-i and C17-h close to C09-f and C17-e/f): independent
testers keep finding the same weak spots, which is itself information (round 7 again: C07-n = C07-l, C07-p = C07-k,
C14-n = C14-l, C17-p = C17-l, C01-p is the fault class of C11-l on another slice; round 8: C05-q and C04-q
are the same line seen from two properties, C07-r is the fault class of C06-b / C01-p on the GROUP BY lists; round 9: C14-s = C04-s, C10-s and C11-s are the
two halves of one soft-delete regrouping, C15-s and C01-s sit on adjacent lines of Pluck). Retired (kept under
`/verif/retired/`, not part of the matrix): {', '.join(retired) or 'none'} - a change whose effect disappeared when
the defect found through it was repaired in gorm (its meta.json says how it was caught on the tree before the repair).

| seeded change | files | at first | what caught it / what had to be added | fires |
|---|---|---|---|---|''']
for n, f, first, h, rnd, det in rows:
    out.append(f'| {n} | {f} | {first} | {h} | {det} |')
out.append('''
What the misses had in common, and what was done about the pattern rather than the instance:

* **Second-use bias** (round 1: C08, C15, C19, C04, C07; round 2: C09-c, C15-c, C16-e, C18-c, C06-e, C11-d;
  round 3: C03-f, C06-f/g, C08-g, C13-f, C19-g, C12-g). Real code keeps using a query value, derives
  siblings from a bound handle, reloads into a destination that already holds data, deletes a record
  twice, runs statements from inside a callback, reuses a sub-query handle. Every engine whose
  property mentions chains, handles or destinations now has a "derive first, use the parent again,
  then run the derived handle" block; C03 and C11 load into reused destinations; C13 repeats deletes.
* **Happy-path bias** (C18-b, C14-b; round 2: C04-c, C05-d, C06-c, C07-d, C14-d; round 3: C15-f, C14-g).
  Error values other than the harness' sentinel, calls gorm rejects, statements failing for all
  goroutines, use of a finished transaction, a Close that blocks, a read failing at its first row, an
  execution that stays in flight while another one meets a bad connection.
* **Schema bias** (C09-a, C16-a, C03-b, C07-b, C01-b; round 2: C02-d, C08-d, C10-d, C11-c/e, C12-d/e,
  C16-c, C19-d, C20-e; round 3: C12-g). Composite keys with and without a prioritized member, pointer /
  embedded / renamed soft-delete fields, database-side defaults, nullable leading columns, unix-number
  time tracking, relations added to populated tables, soft-delete join models.
* **API-surface bias** (round 2: C02-c/e, C01-c/e, C09-d, C13-c, C14-e, C17-d; round 3: C01-g, C10-g,
  C16-f/g, C19-f, C13-g, C17-g). A finisher (Row), an argument form (several condition values in one
  call, pointer to struct, a comma-joined Omit string, a slice that is its own Valuer), an expression type
  (Lte), a clause option (OnConflict.Where), a call order (Having before Group, After before Before), a
  session flag (DryRun) that the generator never used.
* **Cold/warm bias** (C13-d; round 5: C04-k): one long-lived handle meant the schema cache and the
  statement cache were always warm; half of C04's programs now start from an emptied statement cache.
* **Round 6** (three features at once, rarely used entry points): Row() and Rows() inside blocks (C04-l),
  a multi-batch create inside a block whose error the block survives (C04-m), result-set stepping as a
  fault point (C05-l), real re-execution of a chain and relation selects on a handle (C06-l/m), a shared
  handle with a leading Or executed without additions (C07-m), a soft-delete join model (C08-m), a
  polymorphic relation taken along by a keyless delete (C09-l), RETURNING plus a second finisher on one handle
  and empty non-nil collections (C10-l/m), non-primary referenced keys and sibling queries on a frozen chain
  (C11-l/m), natural keys and a kept association handle (C12-l/m), a join model with hooks (C13-m), a nested
  block that fails while the statement cache is reset (C14-m), composite-key re-reads and nullable BLOBs in
  schema-less maps (C15-l/m), a handle bound again to context.Background() (C18-l), Scan into a smaller type
  and batched creates in a dry run (C19-l/m), several entries of one callback name (C17-m).
* **Round 7** (the testers were also asked for defects of the unchanged tree, see 8.3 and 8.3a): a handle that
  already carries exactly 3 or 5-7 joins, then two sibling chains (C01-p); rows of one []map create naming
  different keys (C01-n); the key of the model value given through Model() with a keyless Delete value, scopes
  that register scopes (C02-n/p); an operation that fails when started straight from a reusable handle (C06-p);
  FirstOrCreate and association mode as writes (C10-n/p); a relation of the model's own next to a same-named one
  in an embedded struct, relations two embedding levels deep (C11-n/p); a value held by two relation fields
  under FullSaveAssociations (C12-p); related models with delete hooks below SkipHooks (C13-p); used
  destinations, LIMIT 0 and conditions handed over through Scopes (C15-n/p); a bound handle that is a chain
  value and the context object of the driver call itself (C18-n/p); DryRun switched on by a scope (C19-n);
  blanks in struct tags and fields shadowed by a same-named outer field (C20-n/p); the zeroValue soft-delete
  variant, a hook that deletes through the handle it is given (C08-n/p); Connection blocks (C04-p, C14-p).
* **Round 8**: templates mixing `?` and `@name`, a table-valued function as Table() (C01-q/r); a single-member
  Or handed to Clauses(), a keyed element in front of a keyless one in a Model(slice) (C02-q/r); a read through
  a destination that carries a key with a zero part (C03-r); a caller's own ConnPool below the handle, UPDATE ..
  RETURNING inside a block (C04-q/r); stacked prepared-statement wrappers, a write issued from an AfterFind hook
  (C05-q/r); a kept Raw sub-query used twice, Not(invalid) straight on a handle (C06-q/r); a shared handle with
  three HAVING conditions (C07-r); the marked twin with the lower key under FirstOrCreate+Assign, association
  writes on an Unscoped handle (C08-q/r); belongs-to Clear of a keyless owner (C09-r); permission tags on relation
  fields, OnConflict.Where (C10-q/r); Association().Unscoped().Find, a relation preloaded twice (C11-q/r); an
  update with an empty SET list, a Raw query finished by Find (C13-q/r); Row() in front of a second read on a chain
  value (C15-r); a second Assign, a soft-delete clause moved behind the key (C16-r/x); a name registered twice
  (C17-q); a context bound by a scope in front of FindInBatches (C18-q); ToSQL on a handle with a context, a Create
  that enters with its statement filled (C19-q/r); blanks in the tags a join table inherits, scopes that register
  scopes in front of AutoMigrate (C20-q/r); Row() on a cached statement of another transaction (C14-q/r).
* **Round 9** (one change per property, written in the last two hours): a select list with arguments under Pluck
  (C01-s); nested scopes in front of FindInBatches (C02-s); a column named like another field's Go name (C03-s);
  Row() on a statement cached outside the transaction (C04-s); a hook failing with gorm.ErrRecordNotFound (C05-s);
  a soft-delete join model in front of a soft-delete target read through Association() (C08-s); a pointer to an
  empty slice as the only condition (C09-s); Or-joined conditions of an update on a soft-delete model (C10-s); an Or
  in a Preload scope (C11-s); a kept association handle whose Unscoped() variant was derived earlier (C12-s); one
  belongs-to record held by several elements of a slice argument (C13-s); Pluck behind a Select of several columns
  (C15-s); a one-element list in a map condition of FirstOrInit / FirstOrCreate (C16-s); a Connection block under an
  ended context (C18-s); the dry run of a write gorm refuses for lack of a condition (C19-s); the check tag of a
  shadowed embedded field (C20-s); Begin called on a chain value (C06-s); one serializer instance behind every pooled scan
  value (C07-s); Row() inside a transaction on a statement cached outside it, delivered by two testers (C04-s = C14-s);
  After(a).Before(b) in that order (C17-s). Nine of the twenty were caught at once, among them all four of the
  concurrency and pipeline properties (C06, C07, C14, C17).
* **Rounds 4 and 5, same five patterns, further out.** Second use: a handle derived from a chain that
  stays in use (C06-k), FindInBatches run from a handle (C06-j), a second Raw on a chain value, a handle per
  goroutine (C07-j), a record reachable twice in one Create (C13-h). Error paths: zero-row statements whose
  hook wrote (C04-h), RETURNING on delete (C05-h), hooks failing with a bare library error value (C05-k,
  C13-k), an operation failing after its main statement (C19-j), a failure private to one caller (C14-k), a
  context cancelled in mid-operation or carrying a deadline (C18-j/k), a pipeline entered with an error
  already attached (C17-i). Schema: value and mixed hook receivers (C13-i), anonymous embedding and shadowed
  columns, column names with gorm's own separator (C03-j/k), mixed-case data under LIKE (C02-k), soft-delete
  twins where there were none (C02-j, C11-h). API surface: OnConflict conditions (C01-k), compound finishers
  (C19-h), single-record finders into collections (C15-k), the clause API for an empty condition (C09-j),
  ToSQL on a handle that already runs dry (C19-k), calls that name no target (C12-i), several parents in
  association mode (C11-i), Unscoped + Joins + nested Preload and deletes with selected relations (C08-j/k).

Misses that were not workload gaps:

* **Masking by known findings (C03-d, C17-c, C17-e; suspected for C07-e).** A known finding was identified
  by a signature wider than the defect (any slice with mixed preset keys; any broken After request; any
  race report mentioning the parser), so a different violation of the same property was filed under it
  and the run stayed green. The signatures were narrowed to the structural precondition of the defect
  (":interleaved" vs ":preset-first" keys; number of Before/After requests in the sequence; the two
  access stacks of a race only), C10's oracle emits one violation per class of disagreement, and
  section 8.3 lists the re-keyed findings. A seeded run whose *known* count jumps is treated as a miss.
  Rounds 4 and 5 added three more cases of the same kind: C07-h (every race inside the parser was one
  class; now a fixed list of function pairs), C16-h (every FirstOrCreate+Assign step on a found record with a
  zero key part was filed under KF-C16-1; the engine now predicts exactly what KF-C16-1 leaves and files only
  matching observations), C14-j (every deadlock with one connection was KF-C14-2; a single worker alone has
  its own signature), and the split of `side:star` into four (KF-C17-13/14).
* **Oracle gap (C12-k).** A slice-level Count was accepted anywhere between distinct records and links.
* **Inconclusive instead of violation (C14-d).** The scheduler called Reset/Close synchronously: a Close
  that blocks froze the scheduler and every child ran into the watchdog (exit 2). Controller actions now
  run on their own goroutine and take part in the bounded-progress decision.
* **Scheduler too benign (C14-g).** Every parked call was released sooner or later, so a dependency of
  other workers on one in-flight execution never showed; the hold-back policy completes one execution last.
* **Right check, other property (C04-e, C07-d, C15-c).** Caught by the check of a neighbouring property
  (C05, C14, C06) but not by their own; their own checks were extended as well.

Repairs of gorm found *because* a seeded change made a workload richer (not the seeded defect itself):
the OR in association-join conditions (C08), Row() after a failed preparation (C14), stale relations in
reused destinations (C11, two), Replace on "*" callbacks (C17), re-linking through a soft-delete join
model (C12), a nil self-serializer pointer (C03); plus the known findings KF-C12-7 and KF-C16-1. Rounds 4
and 5: Reset of a configured statement cache with live sessions (C14), hooks of mixed receivers (C13), a
second Raw keeping the first one's arguments (C01), an empty WHERE clause passing the missing-condition guard
(C09), a shadowed field with a database default returned into twice (C03); plus KF-C14-3 and KF-C17-13/14.
Round 6: a scope that returns a session leaves the default transaction open (C05, reported by a tester as
an aside), a failed SAVEPOINT poisons the enclosing handle (C04), doubly wrapped prepared transactions send
save points through the statement cache (C14), empty named byte slices stored as NULL (C03), Model(slice)
with a keyless last element drops the key condition (C10), AutoMigrate argument order (C20); plus
KF-C17-15..18. Four seeded changes lost their effect through such a repair and were retired (C13-i, C09-j,
C09-k, C03-m). Round 7 (defects 68-83 of section 8.3): a caller's column slice appended into by Select (C06),
association joins appended into a shared FROM clause and not removed again after a nested path (C07, C06),
numeric key strings beyond the int range read as raw SQL (C02), Scan / sub-queries / FindInBatches with scopes
that return a session or add conditions (C19, C01, C15), used slice and map-slice destinations (C15, two),
the unique tag of a shadowed field (C20), same-named relations in embedded structs (C11, two), a belongs-to
key with a zero part under FullSaveAssociations (C12), scopes registered by the scopes of a grouped handle
(C02); plus KF-C12-8 and KF-C02-1..4. Most of these came from the testers' asides or from the sub-agents that
widened the workloads, not from a seeded change itself. Round 8 (defects 84-101): Begin on a handle that
carries an error (C04), templates mixing `?` and `@name` (C01), the error of one owner lost in association mode
over several owners and AfterFind on the unused elements of an array (C13), the key of a model value behind two
pointers and OR next to a quote or comment (C02), a handle with an empty WHERE clause as grouped condition (C09),
the Connection block (C06 / C04 / C14), joins left behind by Scan / Rows / Row (C06), `DO NOTHING WHERE` (C10),
Unscoped belongs-to Clear (C08), settings a join table takes over from its key fields (C20), FirstOrCreate+Assign on an Or
chain (C16), the model's key under a deleted value given by value (C02), nil elements of a pointer array under hooks (C13), the
statement map read without its lock (C14); plus KF-C05-1 and KF-C17-19..22. One more change was retired through such a repair (C16-r). Round 9 (defects 102, 103): an Or in a Preload
scope function (C11; the change that led to it, C11-s, was retired through the repair) and statements under an ended context inside a
Connection block (KF-C18-1) - both surfaced the moment the workload for a seeded change was added, before the change itself was tried.
''')
p = '/verif/DESIGN.md'
s = open(p).read()
s = s[:s.index('\n## 9. Seeded changes')].rstrip('\n') + '\n' + '\n'.join(out) + '\n'
open(p, 'w').write(s)
print(cnt)

#!/usr/bin/env python3
"""usage: bin/vsummary.py <ID> [n]  -- groups the violations of the last run by normalised problem text"""
import json, sys, re, collections
pid = sys.argv[1]; n = int(sys.argv[2]) if len(sys.argv) > 2 else 25
v = json.load(open(f'/verif/.work/{pid}.last_violations.json'))
c = collections.Counter(); ex = {}
for x in v:
    d = x['detail'] if isinstance(x['detail'], dict) else {'problems': [str(x['detail'])]}
    for p in d.get('problems', [x['sig']]):
        key = re.sub(r'\d+', 'N', str(p))[:110]
        c[key] += 1
        ex.setdefault(key, (x['case'], d, p))
print(len(v), 'violations')
for k, cnt in c.most_common(n):
    case, d, p = ex[k]
    print(f'--- {cnt}x {k}')
    print('   case', case, '|', p)
    for f in ('chain', 'dialect', 'sql', 'vars', 'path'):
        if f in d: print('   ', f, ':', str(d[f])[:600])

#!/usr/bin/env python3
"""usage: keep_mutant.py <srcdir> <name> <property> <detected_by> <history>
Stores a confirmed seeded change under /verif/seeded/<name>/ (patch.diff, demo_test.go, README.md, meta.json)."""
import sys, os, shutil, json, re
src, name, prop, detected, history = sys.argv[1:6]
dst = f'/verif/seeded/{name}'
os.makedirs(dst, exist_ok=True)
for f in ('patch.diff', 'demo_test.go', 'README.md'):
    if os.path.exists(f'{src}/{f}'):
        shutil.copy(f'{src}/{f}', f'{dst}/{f}')
readme = open(f'{src}/README.md').read() if os.path.exists(f'{src}/README.md') else ''
files = re.findall(r'^\+\+\+ b/(\S+)', open(f'{src}/patch.diff').read(), re.M)
meta = {
    'property': prop,
    'changed_files': files,
    'author': 'independent sub-agent given only the property text and a scratch worktree',
    'needs_to_manifest': readme.strip()[:2500],
    'confirmed': 'bin/confirm_mutant: demo passes on the unchanged tree; with the patch both modules build, the full existing suite passes (private TMPDIR), the demo fails',
    'detected_by': [d for d in detected.split(',') if d],
    'history': history,
}
json.dump(meta, open(f'{dst}/meta.json', 'w'), indent=1)
print('kept', dst)
